package wkm

import (
	"reflect"

	"github.com/sdcio/yang-parser/schema"
)

// Query names one NodeSpec and one action function of the menu of spec/SchemaWalk.tla.
type Query struct {
	Mode  string   `json:"mode"`
	Path  []string `json:"path"`
	Stype string   `json:"stype"`
}

// WCall is what the action function saw in one call.
type WCall struct {
	Name string   `json:"name"`
	Kind string   `json:"kind"`
	Path []string `json:"path"`
	Par  []string `json:"par"`
}

// Item is one element of a slice returned by an action function.
type Item struct {
	T string `json:"t"`
	N string `json:"n"`
}

// Outcome is one observed call of FindOrWalk.
type Outcome struct {
	Calls []WCall  `json:"calls"`
	Found bool     `json:"found"`
	Node  []string `json:"node"`
	Ok    bool     `json:"ok"`
	Ret   []Item   `json:"ret"`
}

func walkKind(n schema.Node) string {
	switch n.(type) {
	case schema.ModelSet:
		return "modelset"
	case schema.Container:
		return "container"
	case schema.List:
		return "list"
	case schema.LeafList:
		return "leaflist"
	case schema.Leaf:
		return "leaf"
	case schema.Choice:
		return "choice"
	case schema.Case:
		return "case"
	case schema.ListEntry:
		return "entry"
	case schema.Tree:
		return "tree"
	}
	return "other"
}

func retOf(c WCall) []interface{} {
	switch c.Kind {
	case "container":
		return []interface{}{Item{"c", c.Name}}
	case "list":
		return []interface{}{Item{"l", c.Name}, Item{"e", c.Name}}
	case "leaflist":
		return []interface{}{Item{"ll", c.Name}}
	case "modelset":
		return []interface{}{Item{"ms", ""}}
	}
	return nil
}

func eqPath(a, b []string) bool {
	if len(a) != len(b) {
		return false
	}
	for i := range a {
		if a[i] != b[i] {
			return false
		}
	}
	return true
}

// act is the action menu of the specification (Act in SchemaWalk.tla), as Go functions of the call.
func act(q Query, c WCall) (bool, bool, []interface{}) {
	mp := append(append([]string{}, c.Path...), c.Name)
	switch q.Mode {
	case "walk":
		return false, true, retOf(c)
	case "walkfalse":
		return false, false, retOf(c)
	case "find":
		return eqPath(mp, q.Path), true, nil
	case "match":
		if eqPath(mp, q.Path) {
			return true, c.Kind == q.Stype, []interface{}{Item{"m", c.Name}}
		}
		return false, true, retOf(c)
	case "name":
		if len(q.Path) > 0 && c.Name == q.Path[len(q.Path)-1] {
			return true, c.Kind != "leaf", []interface{}{Item{"n", c.Name}}
		}
		return false, true, retOf(c)
	}
	return false, true, nil
}

// RunWalk calls the real FindOrWalk once and reports what the action function saw and what came back.
func RunWalk(ms schema.ModelSet, q Query) Outcome {
	spec := schema.NodeSpec{Path: append([]string{}, q.Path...), Statement: schema.NodeSubSpec{Type: q.Stype},
		Data: schema.NodeSubSpec{Type: "d", Properties: []schema.NodeProperty{{NodeProp: "p", NodeValue: "v"}}}, DataPropNotPresent: true}
	want := schema.NodeSpec{Path: append([]string{}, q.Path...), Statement: schema.NodeSubSpec{Type: q.Stype},
		Data: schema.NodeSubSpec{Type: "d", Properties: []schema.NodeProperty{{NodeProp: "p", NodeValue: "v"}}}, DataPropNotPresent: true}
	type tok struct{ x int }
	param := &tok{7}
	out := Outcome{Calls: []WCall{}, Node: []string{}, Ret: []Item{}}
	var seen []schema.Node
	var fn schema.ActionFnType
	if q.Mode != "nil" {
		fn = func(target schema.Node, parent *schema.XNode, nodeToFind schema.NodeSpec, path []string, p interface{}) (bool, bool, []interface{}) {
			c := WCall{Name: target.Name(), Kind: walkKind(target), Path: append([]string{}, path...), Par: []string{}}
			for x := parent; x != nil; {
				c.Par = append(c.Par, x.Name())
				up := x.XParent()
				if up == nil {
					break
				}
				x = up.(*schema.XNode)
			}
			if pp, ok := p.(*tok); !ok || pp != param {
				c.Kind = "PARAM-NOT-PASSED-THROUGH"
			}
			if !reflect.DeepEqual(nodeToFind, want) {
				c.Kind = "NODESPEC-NOT-PASSED-THROUGH"
			}
			out.Calls = append(out.Calls, c)
			seen = append(seen, target)
			return act(q, c)
		}
	}
	node, ok, ret := ms.FindOrWalk(spec, fn, param)
	out.Ok = ok
	for _, r := range ret {
		if it, isItem := r.(Item); isItem {
			out.Ret = append(out.Ret, it)
		} else {
			out.Ret = append(out.Ret, Item{"?", "foreign"})
		}
	}
	if node != nil {
		out.Found = true
		hit := -1
		for i, s := range seen {
			if s == node {
				hit = i
			}
		}
		if hit < 0 {
			out.Node = []string{"?not-a-visited-node"}
		} else if c := out.Calls[hit]; c.Kind == "modelset" {
			out.Node = []string{}
		} else {
			out.Node = append(append([]string{}, c.Path...), c.Name)
		}
	}
	return out
}
